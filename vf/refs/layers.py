"""Float64 NumPy references for the feed-forward layers of C12.

Everything here is written from the *documented* formulas of the layers (flax docstrings, and the jax.lax
docstrings they defer to).  No jax / flax import appears in this module; convolutions are direct sums with
explicit Python loops over output and kernel positions, padding modes are index maps built from their
definitions (never np.pad / jnp.pad)."""
import itertools

import numpy as np

DTYPES = ('float32', 'bfloat16', 'float16')
_EPS = {'float32': 2.0 ** -23, 'bfloat16': 2.0 ** -7, 'float16': 2.0 ** -10}


def np_dtype(name):
  if name == 'bfloat16':
    import ml_dtypes
    return np.dtype(ml_dtypes.bfloat16)
  return np.dtype(name)


def eps_of(name):
  return _EPS[name]


def promote(*names):
  """Result type among {float32, bfloat16, float16}: equal types stay, any mix is float32."""
  s = {n for n in names if n is not None}
  if not s:
    return 'float32'
  return s.pop() if len(s) == 1 else 'float32'


def f64(a):
  return np.asarray(a).astype(np.float64)


def round_to(a, name):
  """Value of `a` after being stored in dtype `name`, as float64."""
  if a is None:
    return None
  return np.asarray(a, np.float64).astype(np_dtype(name)).astype(np.float64)


def _tup(x, n):
  if x is None:
    x = 1
  if isinstance(x, int):
    return (x,) * n
  return tuple(int(v) for v in x)


# ---------------------------------------------------------------------------------------------
# contractions


def norm_axes(axes, ndim):
  if isinstance(axes, int):
    axes = (axes,)
  return tuple(sorted(a + ndim if a < 0 else a for a in axes))


def dense_general_kernel_shape(xshape, axis, batch_dims, features):
  ax = norm_axes(axis, len(xshape))
  bd = norm_axes(batch_dims, len(xshape))
  feats = (features,) if isinstance(features, int) else tuple(features)
  return tuple(xshape[b] for b in bd) + tuple(xshape[a] for a in ax) + feats


def dense_general(x, kernel, bias, axis=-1, batch_dims=()):
  """y[batch..., rest..., feat...] = sum_{contracted} x[...] * kernel[batch..., contracted..., feat...] + bias."""
  nd = x.ndim
  ax = norm_axes(axis, nd)
  bd = norm_axes(batch_dims, nd)
  n_feat = kernel.ndim - len(ax) - len(bd)
  xl = 'abcdefgh'[:nd]
  fl = 'stuvw'[:n_feat]
  rest = [i for i in range(nd) if i not in ax and i not in bd]
  kl = ''.join(xl[b] for b in bd) + ''.join(xl[a] for a in ax) + fl
  ol = ''.join(xl[b] for b in bd) + ''.join(xl[i] for i in rest) + fl
  y = np.einsum('%s,%s->%s' % (xl, kl, ol), x, kernel)
  if bias is not None:
    y = y + bias.reshape(tuple(x.shape[b] for b in bd) + (1,) * len(rest) + kernel.shape[kernel.ndim - n_feat:])
  return y


def einsum_parse(einsum_str, x_ndim):
  """-> (lhs, rhs, out) with '...' of lhs/out replaced by upper-case letters (rhs must not contain '...')."""
  s = einsum_str.replace(' ', '')
  ins, out = s.split('->')
  lhs, rhs = ins.split(',')
  assert '...' not in rhs
  if '...' in lhs:
    n_ell = x_ndim - (len(lhs) - 3)
    ell = 'ABCDEFG'[:n_ell]
    lhs = lhs.replace('...', ell)
    out = out.replace('...', ell)
  return lhs, rhs, out


def einsum_bias_shapes(einsum_str, x_ndim, kernel_shape):
  """(bias_shape, broadcast_shape): kernel dims that survive in the result, in result order."""
  lhs, rhs, out = einsum_parse(einsum_str, x_ndim)
  bshape, bcast = [], []
  for c in out:
    if c in rhs:
      bshape.append(kernel_shape[rhs.index(c)])
      bcast.append(kernel_shape[rhs.index(c)])
    else:
      bcast.append(1)
  return tuple(bshape), tuple(bcast)


def einsum_layer(einsum_str, x, kernel, bias):
  lhs, rhs, out = einsum_parse(einsum_str, x.ndim)
  y = np.einsum('%s,%s->%s' % (lhs, rhs, out), x, kernel)
  if bias is not None:
    y = y + bias.reshape(einsum_bias_shapes(einsum_str, x.ndim, kernel.shape)[1])
  return y


# ---------------------------------------------------------------------------------------------
# convolution: padding as index maps, direct sum


def same_pads(n, window, stride):
  """XLA/TF 'SAME': output ceil(n/stride); total padding split low = total//2, high = rest."""
  out = -(-n // stride)
  total = max((out - 1) * stride + window - n, 0)
  return total // 2, total - total // 2


def canonical_padding(padding, rank):
  """flax PaddingLike -> str or list of (lo, hi)."""
  if isinstance(padding, str):
    return padding
  if isinstance(padding, int):
    return [(padding, padding)] * rank
  out = []
  for p in padding:
    out.append((p, p) if isinstance(p, int) else (int(p[0]), int(p[1])))
  assert len(out) == rank
  return out


def conv_index_maps(spatial, kernel_size, strides, padding, input_dilation, kernel_dilation):
  """Per spatial dim: list over padded coordinates of the source index in the (undilated) input, or -1 for a
  structural zero (zero padding, or a hole introduced by input dilation)."""
  rank = len(spatial)
  padding = canonical_padding(padding, rank)
  maps = []
  for d, n in enumerate(spatial):
    k, s, idil, kdil = kernel_size[d], strides[d], input_dilation[d], kernel_dilation[d]
    kd = (k - 1) * kdil + 1
    nd = (n - 1) * idil + 1
    mode = padding if isinstance(padding, str) else 'EXPLICIT'
    if mode == 'VALID':
      lo, hi = 0, 0
    elif mode == 'SAME':
      lo, hi = same_pads(nd, kd, s)
    elif mode in ('CIRCULAR', 'REFLECT'):
      assert idil == 1
      lo, hi = (kd - 1) // 2, kd // 2
    elif mode == 'CAUSAL':
      assert rank == 1 and idil == 1
      lo, hi = kdil * (k - 1), 0
    else:
      lo, hi = padding[d]
    idx = []
    for p in range(-lo, nd + hi):
      if 0 <= p < nd:
        idx.append(p // idil if p % idil == 0 else -1)
      elif mode == 'CIRCULAR':
        idx.append(p % n)
      elif mode == 'REFLECT':
        assert n >= 2
        q = p % (2 * (n - 1))
        idx.append(q if q < n else 2 * (n - 1) - q)
      else:
        idx.append(-1)
    maps.append(idx)
  return maps


def conv_out_spatial(spatial, kernel_size, strides, padding, input_dilation, kernel_dilation):
  maps = conv_index_maps(spatial, kernel_size, strides, padding, input_dilation, kernel_dilation)
  return tuple((len(m) - ((k - 1) * kd + 1)) // s + 1 for m, k, kd, s in zip(maps, kernel_size, kernel_dilation, strides))


def conv(x, w, b, *, kernel_size, strides=1, padding='SAME', input_dilation=1, kernel_dilation=1, groups=1, local=False):
  """Channels-last direct-sum convolution.

  x: (*batch, *spatial, Cin); shared: w (*k, Cin/groups, Cout), b (Cout,);
  local (unshared): w (*out_spatial, prod(k)*Cin, Cout) with the patch axis in (c, *k) order (the layout
  jax.lax.conv_general_dilated_patches documents), b (*out_spatial, Cout)."""
  kernel_size = tuple(kernel_size)
  rank = len(kernel_size)
  strides, input_dilation, kernel_dilation = _tup(strides, rank), _tup(input_dilation, rank), _tup(kernel_dilation, rank)
  nb = x.ndim - rank - 1
  batch_shape = x.shape[:nb]
  spatial = x.shape[nb:nb + rank]
  cin = x.shape[-1]
  xf = x.reshape((-1,) + tuple(spatial) + (cin,))
  n = xf.shape[0]
  cout = w.shape[-1]
  maps = conv_index_maps(spatial, kernel_size, strides, padding, input_dilation, kernel_dilation)
  out_sp = tuple((len(m) - ((k - 1) * kd + 1)) // s + 1 for m, k, kd, s in zip(maps, kernel_size, kernel_dilation, strides))
  assert all(o >= 1 for o in out_sp), out_sp
  cig, cog = cin // groups, cout // groups
  prodk = int(np.prod(kernel_size))
  y = np.zeros((n,) + out_sp + (cout,))
  for o in itertools.product(*[range(v) for v in out_sp]):
    acc = np.zeros((n, cout))
    for kflat, kk in enumerate(itertools.product(*[range(v) for v in kernel_size])):
      src = [maps[d][o[d] * strides[d] + kk[d] * kernel_dilation[d]] for d in range(rank)]
      if any(i < 0 for i in src):
        continue
      patch = xf[(slice(None),) + tuple(src)]  # (n, cin)
      if local:
        wk = w[o][kflat::prodk]  # rows ci*prodk + kflat, ci = 0..cin-1 -> (cin, cout)
        acc += patch @ wk
      else:
        wk = w[kk]  # (cin/groups, cout)
        for g in range(groups):
          acc[:, g * cog:(g + 1) * cog] += patch[:, g * cig:(g + 1) * cig] @ wk[:, g * cog:(g + 1) * cog]
    y[(slice(None),) + o] = acc
  if b is not None:
    y = y + b.reshape((1,) * (y.ndim - b.ndim) + b.shape)
  return y.reshape(tuple(batch_shape) + out_sp + (cout,))


def conv_param_shapes(xshape, rank, features, kernel_size, strides, padding, input_dilation, kernel_dilation, groups, local):
  nb = len(xshape) - rank - 1
  spatial = xshape[nb:nb + rank]
  cin = xshape[-1]
  if not local:
    return tuple(kernel_size) + (cin // groups, features), (features,)
  out_sp = conv_out_spatial(spatial, kernel_size, _tup(strides, rank), padding, _tup(input_dilation, rank), _tup(kernel_dilation, rank))
  return out_sp + (int(np.prod(kernel_size)) * cin, features), out_sp + (features,)


def conv_transpose_geometry(n, k, s, d, padding, transpose_kernel, circular_convention='adjoint'):
  """One spatial dim of a transposed convolution in scatter form:  out[(i*s + g*d - crop)] += x[i] * W[g'].
  Returns (out_len, crop, wrap).  SAME / VALID are 'the transpose of the corresponding forward conv'
  (jax.lax.conv_transpose docstring): crop is the low padding of that forward convolution; explicit pairs
  pad the stride-dilated input of the equivalent convolution; CIRCULAR has output n*s and wraps."""
  kd = (k - 1) * d + 1
  if padding == 'VALID':
    return n * s + max(kd - s, 0), 0, False
  if padding == 'SAME':
    return n * s, max(kd - s, 0) // 2, False
  if padding == 'CIRCULAR':
    if transpose_kernel and circular_convention == 'adjoint':
      crop = (kd - 1) // 2  # adjoint of the CIRCULAR forward Conv, which pads ((kd-1)//2, kd//2)
    elif transpose_kernel:
      crop = -(-max(kd - s, 0) // 2)  # the "+1 on the right" split the flax source comment describes
    else:
      crop = max(kd - s, 0) // 2  # SAME alignment ("+1 on the left"), wrapped instead of cropped
    return n * s, crop, True
  pa, pb = padding
  return (n - 1) * s + 1 + pa + pb - kd + 1, kd - 1 - pa, False


def conv_transpose(x, w, b, *, kernel_size, strides=None, padding='SAME', kernel_dilation=None, transpose_kernel=False,
                   circular_convention='adjoint'):
  """Scatter (gradient) form.  w: (*k, Cin, Cout), or (*k, Cout, Cin) when transpose_kernel.
  transpose_kernel=True: every input pixel adds x[i] @ w[g].T at offset g (the true gradient of a forward conv
  with kernel w); False: the spatially flipped, un-swapped kernel is used: x[i] @ w[K-1-g] at offset g."""
  kernel_size = tuple(kernel_size)
  rank = len(kernel_size)
  strides, kernel_dilation = _tup(strides, rank), _tup(kernel_dilation, rank)
  nb = x.ndim - rank - 1
  batch_shape = x.shape[:nb]
  spatial = x.shape[nb:nb + rank]
  cin = x.shape[-1]
  xf = x.reshape((-1,) + tuple(spatial) + (cin,))
  cout = w.shape[-2] if transpose_kernel else w.shape[-1]
  pad = canonical_padding(padding, rank)
  geo = [conv_transpose_geometry(spatial[d], kernel_size[d], strides[d], kernel_dilation[d],
                                 pad if isinstance(pad, str) else pad[d], transpose_kernel, circular_convention)
         for d in range(rank)]
  out_sp = tuple(g[0] for g in geo)
  assert all(o >= 1 for o in out_sp), out_sp
  y = np.zeros((xf.shape[0],) + out_sp + (cout,))
  for i in itertools.product(*[range(v) for v in spatial]):
    xi = xf[(slice(None),) + i]  # (n, cin)
    for g in itertools.product(*[range(v) for v in kernel_size]):
      pos = []
      for d in range(rank):
        p = i[d] * strides[d] + g[d] * kernel_dilation[d] - geo[d][1]
        if geo[d][2]:
          p %= out_sp[d]
        elif not 0 <= p < out_sp[d]:
          p = None
        pos.append(p)
      if any(p is None for p in pos):
        continue
      if transpose_kernel:
        wk = w[g].T
      else:
        wk = w[tuple(kernel_size[d] - 1 - g[d] for d in range(rank))]
      y[(slice(None),) + tuple(pos)] += xi @ wk
  if b is not None:
    y = y + b
  return y.reshape(tuple(batch_shape) + out_sp + (cout,))


# ---------------------------------------------------------------------------------------------
# embedding


def embed_lookup(table, idx):
  """Row lookup; negative indices count from the end (the docstring example)."""
  idx = np.asarray(idx).astype(np.int64)
  n = table.shape[0]
  out = np.zeros(idx.shape + (table.shape[1],))
  for pos in itertools.product(*[range(v) for v in idx.shape]):
    i = int(idx[pos])
    out[pos] = table[i + n if i < 0 else i]
  return out


def embed_attend(table, query):
  return np.einsum('...f,nf->...n', query, table)


# ---------------------------------------------------------------------------------------------
# pooling


def pool(x, kind, window, strides=None, padding='VALID', count_include_pad=True):
  """x: (*batch, *spatial, features); kind in avg|max|min|sum."""
  window = tuple(window)
  rank = len(window)
  strides = _tup(strides, rank)
  nb = x.ndim - rank - 1
  spatial = x.shape[nb:nb + rank]
  pads = []
  for d in range(rank):
    if padding == 'VALID':
      pads.append((0, 0))
    elif padding == 'SAME':
      pads.append(same_pads(spatial[d], window[d], strides[d]))
    else:
      pads.append(tuple(padding[d]))
  out_sp = tuple((spatial[d] + pads[d][0] + pads[d][1] - window[d]) // strides[d] + 1 for d in range(rank))
  assert all(o >= 1 for o in out_sp)
  y = np.zeros(x.shape[:nb] + out_sp + x.shape[-1:])
  lead = (slice(None),) * nb
  for o in itertools.product(*[range(v) for v in out_sp]):
    vals = []
    for kk in itertools.product(*[range(v) for v in window]):
      src = [o[d] * strides[d] + kk[d] - pads[d][0] for d in range(rank)]
      if all(0 <= src[d] < spatial[d] for d in range(rank)):
        vals.append(x[lead + tuple(src)])
    total = int(np.prod(window))
    if kind == 'max':
      r = np.max(vals, axis=0) if vals else np.full(x.shape[:nb] + x.shape[-1:], -np.inf)
    elif kind == 'min':
      r = np.min(vals, axis=0) if vals else np.full(x.shape[:nb] + x.shape[-1:], np.inf)
    else:
      sm = np.sum(vals, axis=0) if vals else np.zeros(x.shape[:nb] + x.shape[-1:])
      if kind == 'sum':
        r = sm
      elif count_include_pad:
        r = sm / total
      else:
        r = sm / len(vals)
    y[lead + o] = r
  return y


# ---------------------------------------------------------------------------------------------
# normalisation


def moments(x, axes, mask=None, use_mean=True):
  """Mean / (biased) variance over `axes` of the positions where mask is true; keepdims."""
  axes = norm_axes(tuple(axes), x.ndim)
  m = np.ones(x.shape) if mask is None else np.broadcast_to(np.asarray(mask, np.float64), x.shape)
  cnt = m.sum(axis=axes, keepdims=True)
  with np.errstate(invalid='ignore', divide='ignore'):
    mean = (x * m).sum(axis=axes, keepdims=True) / cnt if use_mean else np.zeros_like(cnt)
    var = (m * (x - mean) ** 2).sum(axis=axes, keepdims=True) / cnt
  return mean, var, cnt


def affine(y, scale, bias, feature_axes):
  fa = norm_axes(feature_axes, y.ndim)
  fshape = [1] * y.ndim
  for a in fa:
    fshape[a] = y.shape[a]
  if scale is not None:
    y = y * scale.reshape(fshape)
  if bias is not None:
    y = y + bias.reshape(fshape)
  return y


def feature_shape(xshape, feature_axes):
  return tuple(xshape[a] for a in norm_axes(feature_axes, len(xshape)))


def layer_norm(x, reduction_axes, feature_axes, eps, scale, bias, mask=None, use_mean=True):
  mean, var, cnt = moments(x, norm_axes(reduction_axes, x.ndim), mask, use_mean)
  y = (x - mean) / np.sqrt(var + eps)
  return affine(y, scale, bias, feature_axes), (mean, var, cnt)


def batch_norm_axes(ndim, axis):
  fa = norm_axes(axis, ndim)
  return tuple(i for i in range(ndim) if i not in fa), fa


def instance_norm_axes(ndim, feature_axes):
  fa = norm_axes(feature_axes, ndim)
  return tuple(i for i in range(1, ndim) if i not in fa), fa


def group_norm(x, num_groups, reduction_axes, eps, scale, bias, mask=None):
  """Statistics shared inside each of `num_groups` contiguous, equally sized channel groups (last axis) and over
  the other reduction axes; default reduction axes: everything but the leading (batch) axis."""
  nd = x.ndim
  ra = tuple(range(1, nd)) if reduction_axes is None else norm_axes(reduction_axes, nd)
  assert ra[-1] == nd - 1
  c = x.shape[-1]
  gs = c // num_groups
  xg = x.reshape(x.shape[:-1] + (num_groups, gs))
  mg = None if mask is None else np.broadcast_to(np.asarray(mask, np.float64), x.shape).reshape(xg.shape)
  mean, var, cnt = moments(xg, tuple(ra[:-1]) + (nd,), mg)
  y = ((xg - mean) / np.sqrt(var + eps)).reshape(x.shape)
  return affine(y, scale, bias, (nd - 1,)), (mean, var, cnt)
