"""Independent reference implementations used by property checks (NumPy only; no jax / flax imports)."""
