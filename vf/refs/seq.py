"""float64 NumPy references for sequence layers (C13): attention weights / multi-head attention, mask helpers,
RNN cell recurrences written from the cell docstrings, and the index arithmetic of reverse / keep_order /
seq_lengths.  Nothing here imports jax or flax; parameters are passed in as plain nested dicts of arrays."""
import numpy as np


def f64(x):
  return np.asarray(x, dtype=np.float64)


def sigmoid(x):
  return 1.0 / (1.0 + np.exp(-x))


# ---------------------------------------------------------------------------------------------
# attention


def attention_logits(q, k, bias=None):
  """q [..., Tq, H, D], k [..., Tk, H, D] -> [..., H, Tq, Tk] = q.k / sqrt(D) (+ bias)."""
  q, k = f64(q), f64(k)
  d = q.shape[-1]
  logits = np.einsum('...qhd,...khd->...hqk', q, k) / np.sqrt(d)
  if bias is not None:
    logits = logits + f64(bias)
  return logits


def attention_weights(q, k, bias=None, mask=None):
  """Softmax over the *allowed* keys only; masked entries get weight exactly 0.
  Returns (weights, row_ok) where row_ok[..., h, i] is False for rows without any allowed key (out of domain)."""
  logits = attention_logits(q, k, bias)
  if mask is None:
    allowed = np.ones(logits.shape, bool)
  else:
    allowed = np.broadcast_to(np.asarray(mask) != 0, logits.shape)
  row_ok = allowed.any(axis=-1)
  neg = np.where(allowed, logits, -np.inf)
  m = np.max(np.where(row_ok[..., None], neg, 0.0), axis=-1, keepdims=True)
  e = np.where(allowed, np.exp(np.where(allowed, logits - m, 0.0)), 0.0)
  s = e.sum(axis=-1, keepdims=True)
  w = np.where(row_ok[..., None], e / np.where(s == 0, 1.0, s), np.nan)
  return w, row_ok


def attention(q, k, v, bias=None, mask=None):
  """-> ([..., Tq, H, Dv], row_ok[..., H, Tq])."""
  w, row_ok = attention_weights(q, k, bias, mask)
  out = np.einsum('...hqk,...khd->...qhd', np.nan_to_num(w), f64(v))
  return out, row_ok


def mha(params, xq, xk, xv, mask=None, bias=None):
  """Multi-head attention from the projection parameters {'query','key','value','out'} x {'kernel'[,'bias']}.
  kernels: q/k/v (F, H, D); out (H, D, Fout).  Returns (out [..., Tq, Fout], weights, row_ok, (q, k, v))."""
  def proj(name, x):
    y = np.einsum('...f,fhd->...hd', f64(x), f64(params[name]['kernel']))
    if 'bias' in params[name]:
      y = y + f64(params[name]['bias'])
    return y
  q, k, v = proj('query', xq), proj('key', xk), proj('value', xv)
  def ln(name, y):
    # QK normalisation (normalize_qk=True): LayerNorm over the head dimension, scale only, epsilon 1e-6
    mu = y.mean(-1, keepdims=True)
    var = ((y - mu) ** 2).mean(-1, keepdims=True)
    return (y - mu) / np.sqrt(var + 1e-6) * f64(params[name]['scale'])
  if 'query_ln' in params:
    q, k = ln('query_ln', q), ln('key_ln', k)
  w, row_ok = attention_weights(q, k, bias, mask)
  o = np.einsum('...hqk,...khd->...qhd', np.nan_to_num(w), v)
  out = np.einsum('...hd,hdf->...f', o, f64(params['out']['kernel']))
  if 'bias' in params['out']:
    out = out + f64(params['out']['bias'])
  return out, w, row_ok, (q, k, v)


def causal_mask(batch_shape, t):
  """[..., 1, T, T]: key j allowed for query i iff j <= i."""
  m = np.zeros(tuple(batch_shape) + (1, t, t), bool)
  for i in range(t):
    for j in range(t):
      m[..., 0, i, j] = j <= i
  return m


def pairwise_mask(qv, kv, fn):
  """[..., 1, Tq, Tk] with entry fn(qv[..., i], kv[..., j])."""
  qv, kv = np.asarray(qv), np.asarray(kv)
  out = np.zeros(qv.shape[:-1] + (1, qv.shape[-1], kv.shape[-1]), np.float64)
  for i in range(qv.shape[-1]):
    for j in range(kv.shape[-1]):
      out[..., 0, i, j] = fn(qv[..., i], kv[..., j])
  return out


def combine(*masks):
  ms = [np.asarray(m) != 0 for m in masks if m is not None]
  if not ms:
    return None
  out = ms[0]
  for m in ms[1:]:
    out = np.logical_and(out, m)
  return out


# ---------------------------------------------------------------------------------------------
# cells (docstring recurrences).  p: nested dict name -> {'kernel': (in, out)[, 'bias': (out,)]}


def _dense(p, x):
  y = f64(x) @ f64(p['kernel'])
  if 'bias' in p and p['bias'] is not None:
    y = y + f64(p['bias'])
  return y


def soft_sign(z):
  return z / (1.0 + np.abs(z))


def lstm_step(p, carry, x, act=np.tanh):
  """i=s(Wii x+Whi h+bhi) f=s(..) g=act(..) o=s(..); c'=f*c+i*g; h'=o*act(c')  (act = activation_fn, tanh by default)."""
  c, h = f64(carry[0]), f64(carry[1])
  i = sigmoid(_dense(p['ii'], x) + _dense(p['hi'], h))
  f = sigmoid(_dense(p['if'], x) + _dense(p['hf'], h))
  g = act(_dense(p['ig'], x) + _dense(p['hg'], h))
  o = sigmoid(_dense(p['io'], x) + _dense(p['ho'], h))
  c2 = f * c + i * g
  h2 = o * act(c2)
  return (c2, h2), h2


def fused_lstm_step(p, carry, x, act=np.tanh):
  """Same recurrence with the four gates stored side by side (i, f, g, o) in dense_i / dense_h (NNX OptimizedLSTMCell)."""
  c, h = f64(carry[0]), f64(carry[1])
  y = _dense(p['dense_i'], x) + _dense(p['dense_h'], h)
  n = y.shape[-1] // 4
  i, f, g, o = (y[..., k * n:(k + 1) * n] for k in range(4))
  c2 = sigmoid(f) * c + sigmoid(i) * act(g)
  h2 = sigmoid(o) * act(c2)
  return (c2, h2), h2


def gru_step(p, carry, x):
  """r=s(Wir x+bir+Whr h) z=s(Wiz x+biz+Whz h) n=tanh(Win x+bin+r*(Whn h+bhn)); h'=(1-z)*n+z*h."""
  h = f64(carry)
  r = sigmoid(_dense(p['ir'], x) + _dense(p['hr'], h))
  z = sigmoid(_dense(p['iz'], x) + _dense(p['hz'], h))
  n = np.tanh(_dense(p['in'], x) + r * _dense(p['hn'], h))
  h2 = (1.0 - z) * n + z * h
  return h2, h2


def fused_gru_step(p, carry, x):
  """NNX GRUCell: (r, z, n) side by side in dense_i (with bias) / dense_h (no bias, i.e. b_hn = 0)."""
  h = f64(carry)
  xi, hh = _dense(p['dense_i'], x), _dense(p['dense_h'], h)
  n_ = xi.shape[-1] // 3
  xr, xz, xn = (xi[..., k * n_:(k + 1) * n_] for k in range(3))
  hr, hz, hn = (hh[..., k * n_:(k + 1) * n_] for k in range(3))
  r = sigmoid(xr + hr)
  z = sigmoid(xz + hz)
  n = np.tanh(xn + r * hn)
  h2 = (1.0 - z) * n + z * h
  return h2, h2


def simple_step(p, carry, x, residual=False, names=('i', 'h')):
  """h' = tanh(Wi x + bi + Wh h [+ h])."""
  h = f64(carry)
  pre = _dense(p[names[0]], x) + _dense(p[names[1]], h)
  if residual:
    pre = pre + h
  h2 = np.tanh(pre)
  return h2, h2


def mgu_step(p, carry, x, reset_gate=True):
  """f=s(Wif x+bif+Whf h); n=tanh(Win x+bin+f*(Whn h+bhn)) [reset_gate] or tanh(Win x+bin+Whn h); h'=(1-f)*n+f*h."""
  h = f64(carry)
  f = sigmoid(_dense(p['if'], x) + _dense(p['hf'], h))
  hn = _dense(p['hn'], h)
  if reset_gate:
    hn = f * hn
  n = np.tanh(_dense(p['in'], x) + hn)
  h2 = (1.0 - f) * n + f * h
  return h2, h2


def conv_same(x, kernel, bias=None):
  """Direct-sum cross-correlation with 'SAME' padding, stride 1.  x (*batch, *spatial, Cin); kernel (*k, Cin, Cout)."""
  x, kernel = f64(x), f64(kernel)
  nsp = kernel.ndim - 2
  ks = kernel.shape[:nsp]
  sp = x.shape[-1 - nsp:-1]
  nb = x.ndim - nsp - 1
  pads = [(0, 0)] * nb + [((k - 1) // 2, (k - 1) - (k - 1) // 2) for k in ks] + [(0, 0)]
  xp = np.pad(x, pads)
  out = np.zeros(x.shape[:-1] + (kernel.shape[-1],))
  for pos in np.ndindex(*sp):
    acc = np.zeros(x.shape[:nb] + (kernel.shape[-1],))
    for d in np.ndindex(*ks):
      src = tuple(p + dd for p, dd in zip(pos, d))
      acc = acc + xp[(Ellipsis,) + src + (slice(None),)] @ kernel[d]
    out[(Ellipsis,) + pos + (slice(None),)] = acc
  if bias is not None:
    out = out + f64(bias)
  return out


def convlstm_step(p, carry, x):
  """gates = W_i* * x + W_h* * h + b, stored as (i, g, f, o) blocks of the fused kernels 'ih'/'hh';
  f = s(f + 1) (forget-gate offset documented in the note); c' = f c + s(i) tanh(g); h' = s(o) tanh(c')."""
  c, h = f64(carry[0]), f64(carry[1])
  gates = conv_same(x, p['ih']['kernel'], p['ih'].get('bias')) + conv_same(h, p['hh']['kernel'], p['hh'].get('bias'))
  n = gates.shape[-1] // 4
  i, g, f, o = (gates[..., k * n:(k + 1) * n] for k in range(4))
  f = sigmoid(f + 1.0)
  c2 = f * c + sigmoid(i) * np.tanh(g)
  h2 = sigmoid(o) * np.tanh(c2)
  return (c2, h2), h2


# ---------------------------------------------------------------------------------------------
# time re-indexing (batch-major arrays: (*batch, T, *features))


def lengths_or_full(lengths, batch_shape, t):
  if lengths is None:
    return np.full(tuple(batch_shape), t, np.int64)
  return np.asarray(lengths, np.int64).reshape(tuple(batch_shape))


def reverse_valid(x, lengths, nb):
  """out[b, t] = x[b, L_b-1-t] for t < L_b; padding positions keep their own content (it is ignored)."""
  x = np.asarray(x)
  out = x.copy()
  for b in np.ndindex(*x.shape[:nb]):
    L = int(lengths[b])
    for t in range(L):
      out[b + (t,)] = x[b + (L - 1 - t,)]
  return out


def valid_mask(lengths, batch_shape, t):
  m = np.zeros(tuple(batch_shape) + (t,), bool)
  for b in np.ndindex(*batch_shape):
    m[b + (slice(0, int(lengths[b])),)] = True
  return m


def select_at_length(history, lengths, nb, initial=None):
  """history: list over t of arrays (*batch, ...) (state after step t) -> out[b] = history[L_b-1][b]; an empty sequence
  (L_b = 0) has made no step: its state is the initial one."""
  out = np.array(history[0], copy=True)
  for b in np.ndindex(*out.shape[:nb]):
    L = int(lengths[b])
    out[b] = history[L - 1][b] if L > 0 else np.asarray(initial)[b]
  return out
